"""schc_util.py -- neutral forms of rules / packet descriptors, serialisation for the model driver,
rule generators, and the independent reference (RFC 8724 section 7 on plain bit strings)."""
from core import mk, bits_of, L, R, Buffer, Padding, randbits
from core import mkmap, given_items
from microschc.rfc8724 import (FieldDescriptor, PacketDescriptor, RuleFieldDescriptor, RuleDescriptor, MatchMapping,
                               RuleNature, DirectionIndicator as DI, MatchingOperator as MO,
                               CompressionDecompressionAction as CDA)
from microschc.protocol.ipv4 import IPv4Fields
from microschc.protocol.ipv6 import IPv6Fields
from microschc.protocol.udp import UDPFields
from microschc.protocol.coap import CoAPFields
from microschc.protocol.sctp import SCTPFields
from microschc.protocol import ComputeFunctions
import packets as P

# ---- field identifiers: enum member -> (protocol letter, rank in its enum) ---------------------------
FID = {}
for _p, _enum in (('4', IPv4Fields), ('6', IPv6Fields), ('U', UDPFields), ('C', CoAPFields), ('S', SCTPFields)):
    for _i, _m in enumerate(_enum):
        FID[str(_m.value)] = (_p, _i)
FID['Payload'] = ('O', 0)
_OTHER = {}
import re as _re
_UNKNOWN_RE = _re.compile(r'^(?:CoAP:Option Unknown|CoAPFields\.OPTION_UNKNOWN)\((\d+)\)$')


def fid_of(id_):
    s = str(id_.value) if hasattr(id_, 'value') else str(id_)
    if s in FID:
        return FID[s]
    m = _UNKNOWN_RE.match(s)      # 'CoAP:Option Unknown(n)' (the f-string of the member prints differently across Python versions)
    if m:
        return ('C', 1000 + int(m.group(1)))
    if s not in _OTHER:
        _OTHER[s] = ('O', 1 + len(_OTHER))
    return _OTHER[s]


COMPUTABLE = set(str(k.value) for k in ComputeFunctions)
DIRC = {DI.UP: 'U', DI.DOWN: 'D', DI.BIDIRECTIONAL: 'B'}
DIRS = {'U': DI.UP, 'D': DI.DOWN, 'B': DI.BIDIRECTIONAL}
MOC = {MO.EQUAL: 'e', MO.IGNORE: 'i', MO.MSB: 'm', MO.MATCH_MAPPING: 'p'}
CDAC = {CDA.NOT_SENT: 'n', CDA.LSB: 'l', CDA.MAPPING_SENT: 'm', CDA.VALUE_SENT: 'v', CDA.COMPUTE: 'c'}


def tb(bits):
    return bits if bits else '-'


# ---- neutral forms ---------------------------------------------------------------------------------
NATC = {RuleNature.COMPRESSION: 'C', RuleNature.NO_COMPRESSION: 'N', RuleNature.FRAGMENTATION: 'F'}


def n_rule(rule):
    """library RuleDescriptor -> neutral dict"""
    fds = []
    for rf in (rule.field_descriptors if rule.nature is not RuleNature.NO_COMPRESSION else []):
        if isinstance(rf.target_value, MatchMapping):
            tv = ('m', [(bits_of(k), bits_of(v)) for k, v in given_items(rf.target_value)])
        else:
            tv = ('b', bits_of(rf.target_value))
        fds.append(dict(fid=fid_of(rf.id), len=rf.length, pos=rf.position, dir=DIRC[DI(rf.direction)],
                        mo=MOC[MO(rf.matching_operator)], cda=CDAC[CDA(rf.compression_decompression_action)], tv=tv))
    return dict(id=bits_of(rule.id), nature=NATC[rule.nature], fds=fds)


def n_pdesc(pd):
    return dict(dir=DIRC[DI(pd.direction)], fields=[(fid_of(f.id), f.position, bits_of(f.value)) for f in pd.fields],
                payload=bits_of(pd.payload))


def rule_tokens(nr):
    t = ['R', tb(nr['id']), nr['nature'], str(len(nr['fds']))]
    for f in nr['fds']:
        t += [f['fid'][0], str(f['fid'][1]), str(f['len']), str(f['pos']), f['dir'], f['mo'], f['cda']]
        if f['tv'][0] == 'b':
            t += ['b', tb(f['tv'][1])]
        else:
            t += ['m', str(len(f['tv'][1]))]
            for v, i in f['tv'][1]:
                t += [tb(v), tb(i)]
    return t


def raw_rule_tokens(rule):
    """the rule as the objects are (raw Buffer fields: bytes, length, padding side, padding length) for the byte-level model"""
    from core import raw
    fds = rule.field_descriptors if rule.nature is not RuleNature.NO_COMPRESSION else []
    t = ['R', raw(rule.id), NATC[rule.nature], str(len(fds))]
    for rf in fds:
        fid = fid_of(rf.id)
        t += [fid[0], str(fid[1]), str(rf.length), str(rf.position), DIRC[DI(rf.direction)], MOC[MO(rf.matching_operator)], CDAC[CDA(rf.compression_decompression_action)]]
        if isinstance(rf.target_value, MatchMapping):
            t += ['m', str(len(given_items(rf.target_value)))]
            for k, v in given_items(rf.target_value):
                t += [raw(k), raw(v)]
        else:
            t += ['b', raw(rf.target_value)]
    return t


def raw_pdesc_tokens(pd):
    from core import raw
    t = ['P', DIRC[DI(pd.direction)], str(len(pd.fields))]
    for f in pd.fields:
        fid = fid_of(f.id)
        t += [fid[0], str(fid[1]), str(f.position), raw(f.value)]
    t.append(raw(pd.payload))
    return t


def rules_tokens(nrs):
    t = [str(len(nrs))]
    for r in nrs:
        t += rule_tokens(r)
    return t


def pdesc_tokens(npd):
    t = ['P', npd['dir'], str(len(npd['fields']))]
    for fid, pos, bits in npd['fields']:
        t += [fid[0], str(fid[1]), str(pos), tb(bits)]
    t.append(tb(npd['payload']))
    return t


# ---- reference: RFC 8724 section 7 on plain bit strings (independent of the library and of the model) --
def i2b(v, n):
    return format(v, '0%db' % n) if n else ''


WIDE_PREFIX = [False]      # tests of the decoder only: announce every size on the next wider form (not what RFC 8724 7.4.2 prescribes)


def ref_size_prefix(n):
    """RFC 8724 section 7.4.2"""
    assert 0 <= n < 65536
    if WIDE_PREFIX[0]:
        return '1111' + i2b(n, 8) if n < 15 else '1111' * 3 + i2b(n, 16)
    if n < 15:
        return i2b(n, 4)
    if n < 255:
        return '1111' + i2b(n, 8)
    return '1111' * 3 + i2b(n, 16)


def applies(fd, d):
    return fd['dir'] in (d, 'B')


def select(nr, d):
    return nr['fds'] if d is None else [f for f in nr['fds'] if applies(f, d)]


def ref_residue(v, fd):
    """residue of field value v under descriptor fd, None when the descriptor cannot encode v"""
    c = fd['cda']
    if c in ('n', 'c'):
        return ''
    if c == 'v':
        return (ref_size_prefix(len(v)) if fd['len'] == 0 else '') + v
    if c == 'l':
        pat = fd['tv'][1]
        if fd['tv'][0] != 'b' or len(pat) > len(v):
            return None
        r = v[len(pat):]
        return (ref_size_prefix(len(r)) if fd['len'] == 0 else '') + r
    if c == 'm':
        if fd['tv'][0] != 'm':
            return None
        for val, idx in fd['tv'][1]:
            if val == v:
                return idx
        return None


def ref_compress(npd, nr, d=None):
    """The SCHC packet of RFC 8724 section 7: rule id, residues in rule order, payload."""
    if nr['nature'] == 'N':
        return nr['id'] + ''.join(f[2] for f in npd['fields']) + npd['payload']
    if nr['nature'] == 'F':
        return nr['id']          # what compress does with a fragmentation rule (never selected by a manager): the bare id
    out = nr['id']
    for (fid, pos, v), fd in zip(npd['fields'], select(nr, d)):
        r = ref_residue(v, fd)
        if r is None:
            return None
        out += r
    return out + npd['payload']


def ref_field_match(fid, v, fd):
    if fid != fd['fid']:
        return False
    m = fd['mo']
    if m == 'i':
        return True
    if m == 'e':
        return fd['tv'][0] == 'b' and v == fd['tv'][1]
    if m == 'm':
        pat = fd['tv'][1]
        if fd['len'] != 0 and fd['len'] != len(v):
            return False
        return len(v) >= len(pat) and v[:len(pat)] == pat
    if m == 'p':
        return any(val == v for val, _ in fd['tv'][1])


def ref_rule_applies(npd, nr):
    """C04: the rule is offered iff ..."""
    if nr['nature'] == 'N':
        return True
    if nr['nature'] == 'F':
        return False             # rules of fragmentation nature share the id space and are never offered for compression
    fds = select(nr, npd['dir'])
    if len(fds) != len(npd['fields']):
        return False
    return all(ref_field_match(fid, v, fd) for (fid, pos, v), fd in zip(npd['fields'], fds))


def ref_take_size(s):
    """decode a size prefix at the head of s: (size, prefix width)"""
    v = int(s[:4] or '0', 2)
    if v < 15:
        return v, 4
    v = int(s[4:12] or '0', 2)
    if v < 255:
        return v, 12
    return int(s[12:28] or '0', 2), 28


def ref_decompress_fields(s, nr, d=None):
    """Reference decompressor: consume residues per the rule; returns (list of (fid, bits|None for compute, len), rest)"""
    out = []
    for fd in select(nr, d):
        c = fd['cda']
        if c == 'n':
            out.append((fd['fid'], fd['tv'][1]))
        elif c == 'v' or c == 'l':
            pat = fd['tv'][1] if c == 'l' else ''
            if fd['len'] == 0:
                n, w = ref_take_size(s)
                s = s[w:]
            else:
                n = fd['len'] - len(pat)
            out.append((fd['fid'], pat + s[:n]))
            s = s[n:]
        elif c == 'm':
            for val, idx in fd['tv'][1]:
                if s[:len(idx)] == idx and len(s) >= len(idx):
                    out.append((fd['fid'], val))
                    s = s[len(idx):]
                    break
            else:
                out.append((fd['fid'], ''))
        elif c == 'c':
            out.append((fd['fid'], None, fd['len']))
    return out, s


def b2bytes(bits):
    bits = bits + '0' * ((8 - len(bits) % 8) % 8)
    return int(bits or '0', 2).to_bytes(len(bits) // 8, 'big') if bits else b''


def ref_fill_computes(fields, payload):
    """Fill compute fields (value None) with the RFC-defined values over the rebuilt packet.
    fields: list of (fid, bits) or (fid, None, len).  Lengths first, then checksums."""
    vals = [(f[0], ('0' * f[2]) if f[1] is None else f[1]) for f in fields]
    todo = [i for i, f in enumerate(fields) if f[1] is None]

    def tail(i):
        return ''.join(v for _, v in vals[i:]) + payload

    # lengths first; then the checksums from the inside out: a UDP checksum covers everything the datagram carries, an SCTP packet with its
    # checksum included (UDP port 132), so the SCTP checksum comes before it (RFC 768: the checksum is computed over the data as sent)
    def rank(i):
        f_ = vals[i][0]
        if f_ in (FID[str(IPv4Fields.TOTAL_LENGTH.value)], FID[str(IPv6Fields.PAYLOAD_LENGTH.value)], FID[str(UDPFields.LENGTH.value)]):
            return 0
        if f_ == FID[str(SCTPFields.CHECKSUM.value)]:
            return 1
        return 2
    order = sorted(todo, key=lambda i: (rank(i), i))
    for i in order:
        fid = vals[i][0]
        if fid == FID[str(IPv6Fields.PAYLOAD_LENGTH.value)]:
            # bytes after the 40-byte IPv6 header
            n = (len(tail(i + 5)) + 7) // 8
            vals[i] = (fid, i2b(n, 16))
        elif fid == FID[str(IPv4Fields.TOTAL_LENGTH.value)]:
            n = (len(tail(i - 3)) + 7) // 8
            vals[i] = (fid, i2b(n, 16))
        elif fid == FID[str(UDPFields.LENGTH.value)]:
            n = (len(tail(i - 2)) + 7) // 8
            vals[i] = (fid, i2b(n, 16))
        elif fid == FID[str(IPv4Fields.HEADER_CHECKSUM.value)]:
            hdr = ''.join(v for _, v in vals[i - 9:i + 3])
            hb = bytearray(b2bytes(hdr))
            hb[10:12] = b'\0\0'
            vals[i] = (fid, i2b(P.csum16(bytes(hb)), 16))
        elif fid == FID[str(UDPFields.CHECKSUM.value)]:
            udpb = bytearray(b2bytes(tail(i - 3)))
            udpb[6:8] = b'\0\0'
            prev = vals[i - 4][0][0]
            if prev == '6':
                j = max(k for k in range(i) if vals[k][0] == FID[str(IPv6Fields.SRC_ADDRESS.value)])
                c = P.udp_checksum_v6(b2bytes(vals[j][1]), b2bytes(vals[j + 1][1]), bytes(udpb))
            else:
                j = max(k for k in range(i) if vals[k][0] == FID[str(IPv4Fields.SRC_ADDRESS.value)])
                c = P.udp_checksum_v4(b2bytes(vals[j][1]), b2bytes(vals[j + 1][1]), bytes(udpb))
            vals[i] = (fid, i2b(c, 16))
        elif fid == FID[str(SCTPFields.CHECKSUM.value)]:
            sb = bytearray(b2bytes(tail(i - 3)))
            sb[8:12] = b'\0\0\0\0'
            ck = P.sctp_checksum_field(bytes(sb))
            vals[i] = (fid, i2b(int.from_bytes(ck, 'big'), 32))
    return vals


def ref_decompress(s, nr, d=None):
    """Full reference decompression of SCHC packet bits s with neutral rule nr."""
    s = s[len(nr['id']):]
    if nr['nature'] == 'N':
        return s
    fields, rest = ref_decompress_fields(s, nr, d)
    vals = ref_fill_computes(fields, rest)
    return ''.join(v for _, v in vals) + rest


# ---- rule generation from a parsed packet -----------------------------------------------------------
KINDS = ('ns', 'vs', 'vsv', 'lsb', 'lsbv', 'map', 'comp')


def gen_rfd(rnd, f, kind, direction=DI.BIDIRECTIONAL, side=None):
    """One rule field descriptor of the given kind matching packet field f (a library FieldDescriptor)."""
    fb = bits_of(f.value)
    n = len(fb)
    sd = (lambda: rnd.choice([L, R])) if side is None else (lambda: side)
    from core import mkj
    mk = lambda bits, side_=L: mkj(rnd, bits, side_)  # noqa: E731 -- target values built the way callers build them (surplus content)
    if kind == 'comp' and str(getattr(f.id, 'value', f.id)) not in COMPUTABLE:
        kind = 'vs'
    if kind == 'ns':
        return RuleFieldDescriptor(f.id, n, f.position, direction, mk(fb, sd()), MO.EQUAL, CDA.NOT_SENT)
    if kind == 'vs':
        return RuleFieldDescriptor(f.id, n, f.position, direction, Buffer(b'', 0), MO.IGNORE, CDA.VALUE_SENT)
    if kind == 'vsv':
        return RuleFieldDescriptor(f.id, 0, f.position, direction, Buffer(b'', 0), MO.IGNORE, CDA.VALUE_SENT)
    if kind in ('lsb', 'lsbv'):
        x = rnd.randint(0, n)
        return RuleFieldDescriptor(f.id, n if kind == 'lsb' else 0, f.position, direction, mk(fb[:x], sd()), MO.MSB, CDA.LSB)
    if kind == 'vst':
        # value-sent under a descriptor that carries a target value (equal / value-sent, MSB / value-sent: legal pairings outside the
        # five of C01; the residue is the whole field, announced by its OWN size when the length is variable)
        mo_ = rnd.choice([MO.EQUAL, MO.MSB])
        tvb = fb if mo_ == MO.EQUAL else fb[:rnd.randint(0, n)]
        return RuleFieldDescriptor(f.id, rnd.choice([0, n]), f.position, direction, mk(tvb, sd()), mo_, CDA.VALUE_SENT)
    if kind == 'lsbi':
        # LSB under ignore with a declared length that is 0, the field's, or ANOTHER one (the operator does not look at the length):
        # the residue is what follows the pattern IN THE FIELD.  Compress-side only: the decompressor goes by the declared length.
        x = rnd.randint(0, n)
        return RuleFieldDescriptor(f.id, rnd.choice([0, n, n + 8, max(1, n - 8), n + 1, n + 16]), f.position, direction, mk(fb[:x], sd()), MO.IGNORE, CDA.LSB)
    if kind == 'map':
        kk = rnd.randint(1, 3)
        size = rnd.randint(1, 2 ** kk)
        idxs = rnd.sample(range(2 ** kk), size)
        vals = [fb]
        tries = 0
        while len(vals) < size and tries < 50:
            tries += 1
            v = randbits(rnd, n)
            if tries < 3 and rnd.random() < 0.5:
                # another mapped value that spells the same NUMBER with another length (leading zeros added or stripped):
                # it is a different bit string, a different key
                v = rnd.choice(['0' * 8 + fb, '0' * rnd.randint(1, 7) + fb, fb.lstrip('0'), fb[8:] if fb.startswith('0' * 8) else '0' + fb])
            if v not in vals:
                vals.append(v)
        rnd.shuffle(vals)
        codes = [i2b(i, kk) for i in idxs]
        r_ = rnd.random()
        if len(vals) == 1 and r_ < 0.4:
            codes = ['']                                   # the natural width of a one-entry mapping: ceil(log2(1)) = 0 bits
        elif r_ < 0.3:
            codes = prefix_free_ids(rnd, len(vals), maxlen=6)   # indices of unequal widths (a prefix code)
        fw = {mk(v, sd()): mk(c, sd()) for v, c in zip(vals, codes)}
        return RuleFieldDescriptor(f.id, n, f.position, direction, mkmap(fw), MO.MATCH_MAPPING, CDA.MAPPING_SENT)
    if kind == 'mapset':
        # a match-mapping used as a set of admissible values: several values share one index (many-to-one; lossy for mapping-sent,
        # so only the matcher and the compressor are judged on it), paired with value-sent or mapping-sent
        vals = [fb] + [randbits(rnd, n) for _ in range(rnd.randint(1, 3))]
        vals = list(dict.fromkeys(vals))
        rnd.shuffle(vals)
        code = rnd.choice(['', '0', '10'])
        fw = {mk(v, sd()): mk(code, sd()) for v in vals}
        cda = rnd.choice([CDA.VALUE_SENT, CDA.MAPPING_SENT])
        return RuleFieldDescriptor(f.id, n, f.position, direction, mkmap(fw), MO.MATCH_MAPPING, cda)
    if kind == 'comp':
        return RuleFieldDescriptor(f.id, n, f.position, direction, Buffer(b'', 0), MO.IGNORE, CDA.COMPUTE)
    raise ValueError(kind)


def gen_rule(rnd, pd, rid_bits, kinds=KINDS, direction=DI.BIDIRECTIONAL, side=None, weights=None):
    fds = []
    ks = []
    has_ip = any(fid_of(f.id)[0] in '46' for f in pd.fields)
    for f in pd.fields:
        k = rnd.choices(kinds, weights=weights)[0] if weights else rnd.choice(kinds)
        if k == 'comp' and (str(getattr(f.id, 'value', f.id)) not in COMPUTABLE or (fid_of(f.id) == FID[str(UDPFields.CHECKSUM.value)] and not has_ip)):
            k = 'vs'   # the UDP checksum needs an IP pseudo-header: not computable in a bare UDP stack
        fd = gen_rfd(rnd, f, k, direction, side)
        fds.append(fd)
        ks.append(k)
    r = RuleDescriptor(id=mk(rid_bits, rnd.choice([L, R]) if side is None else side), field_descriptors=fds)
    r._kinds = ks
    return r


def prefix_free_ids(rnd, n, maxlen=16):
    """n distinct prefix-free bit strings of various lengths (a random prefix code)."""
    ids = []
    tries = 0
    if n <= 8 and rnd.random() < 0.2:
        # a prefix code whose members are all equal as integers: 1, 01, 001, ... (shuffled)
        ids = ['0' * k + '1' for k in range(n)]
        rnd.shuffle(ids)
        return ids
    while len(ids) < n and tries < 1000:
        tries += 1
        ln = rnd.choice([1, 2, 3, 4, 5, 8, 9, rnd.randint(1, maxlen)])
        c = randbits(rnd, ln)
        if all(not c.startswith(x) and not x.startswith(c) for x in ids):
            ids.append(c)
    if len(ids) < n:
        # fall back to fixed width
        w = max(1, (n - 1).bit_length())
        ids = [i2b(i, w) for i in range(n)]
    return ids


# ---- the domain of C01: lossless pairings with a rule length of 0 or the field length ------------------
LOSSLESS = {('e', 'n'), ('i', 'v'), ('m', 'l'), ('p', 'm'), ('i', 'c')}


def is_lossless_for(npd, nr, d=None):
    """nr applies to npd through descriptors that are lossless by construction (the quantifier of C01)."""
    if nr['nature'] == 'N':
        return True
    if nr['nature'] == 'F':
        return False
    fds = select(nr, d if d is not None else npd['dir'])
    if len(fds) != len(npd['fields']):
        return False
    for (fid, pos, v), fd in zip(npd['fields'], fds):
        if (fd['mo'], fd['cda']) not in LOSSLESS:
            return False
        if fd['cda'] in ('v', 'l') and fd['len'] not in (0, len(v)):
            return False
        if fd['cda'] == 'c' and fd['len'] != len(v):
            return False
        if fd['cda'] == 'm':
            vals = [a for a, _ in fd['tv'][1]]
            idxs = [b for _, b in fd['tv'][1]]
            if len(set(vals)) != len(vals):
                return False
            for i, a in enumerate(idxs):
                for j, b2 in enumerate(idxs):
                    if i != j and b2.startswith(a):
                        return False
    return True
