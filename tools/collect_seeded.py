#!/usr/bin/env python3
"""collect_seeded.py <round-prefix> <results-dir> [<results-dir-overriding> ...]
Copies confirmed seeded changes (as judged by tools/run_seeded.py, whose JSON results are in the given directories;
later directories override earlier ones) into /verif/seeded/<prefix><id>-<k>/ and rewrites that round's table in
seeded/RESULTS-<prefix>.md."""
import json, glob, os, shutil, sys
OUT = '/verif/seeded'
prefix = sys.argv[1]
res = {}
first = {}
for d in sys.argv[2:]:
    for f in sorted(glob.glob(os.path.join(d, '*.json'))):
        name = os.path.basename(f)[:-5]
        try:
            r = json.load(open(f))
        except Exception:
            continue
        first.setdefault(name, r)
        res[name] = r
rows = []
for name, r in sorted(res.items()):
    src = r['dir']
    if not r.get('confirmed'):
        rows.append((name, 'not confirmed: %s' % ({k: r.get(k) for k in ('tests', 'demo_with', 'demo_without', 'error')}), '', '', '', ''))
        continue
    d = os.path.join(OUT, prefix + name)
    os.makedirs(d, exist_ok=True)
    shutil.copy(os.path.join(src, 'patch.diff'), d)
    shutil.copy(os.path.join(src, 'demo.py'), d)
    meta = json.load(open(os.path.join(src, 'meta.json')))
    cb = r.get('caught_by', {})
    cb0 = first[name].get('caught_by', {})
    meta.update({'breaks_property': name[:3],
                 'confirmed_in_scratch_worktree': {'tests': r['tests'], 'demo_exit_without_patch': r['demo_without'], 'demo_exit_with_patch': r['demo_with'], 'demo_output_tail': r.get('demo_output', '')[-200:]},
                 'what_was_run': 'tools/run_seeded.py: git worktree of /repo HEAD, git apply patch.diff, pytest (82 tests), demo.py with and without the patch; then git -C /repo apply, every ./check <id> --tier quick, git -C /repo checkout -- .',
                 'caught_by_before_strengthening': sorted(cb0),
                 'caught_by': {k: {'line': v['violation'][0] if v['violation'] else 'exit %d' % v['rc'], 'what': (v['what'] or [''])[0]} for k, v in cb.items()}})
    json.dump(meta, open(os.path.join(d, 'meta.json'), 'w'), indent=1)
    own = name[:3]
    prop = [k for k, v in cb.items() if v['violation'] and v['violation'][0].endswith('failing-input')]
    corr = [k for k in cb if k not in prop]
    rows.append((name, meta.get('summary', '')[:160].replace('\n', ' ').replace('|', '/'), ' '.join(sorted(cb0)) or '(none)', ' '.join(sorted(prop)), ' '.join(sorted(corr)), 'yes' if own in cb else 'NO'))
with open(os.path.join(OUT, 'RESULTS-%s.md' % prefix.rstrip('-')), 'w') as f:
    f.write('# Seeded changes, round %s, and the checks that catch them\n\nEach change was written by a fresh sub-agent that saw only the property text and a scratch worktree; confirmed: 82 tests pass, demo fails with / passes without the change.\n'
            '`first run` = checks that reported it before any strengthening prompted by this round; the other columns are the state after strengthening.\n'
            '`failing input` = the check reported a concrete input on which the property fails on the implementation; `model disagreement` = only the correspondence was reported (VIOLATION ... no-failing-input-found).\n\n'
            '| change | what it does | caught at first run by | now caught with a failing input by | now caught as model disagreement by | own property\'s check catches it |\n|---|---|---|---|---|---|\n' % prefix.rstrip('-'))
    for r in rows:
        f.write('| %s | %s | %s | %s | %s | %s |\n' % r)
print(len(rows), 'rows')
