"""An IPv6 / UDP / SCTP packet decompressed by the library (rule in packet order computing the IPv6 payload
length, the UDP length, the UDP checksum and the SCTP checksum); prints the data for the Coq example."""
import struct, sys
from microschc.binary.buffer import Buffer, Padding
from microschc.protocol.registry import factory
from microschc.rfc8724 import RuleFieldDescriptor, RuleDescriptor, DirectionIndicator, MatchingOperator as MO, CompressionDecompressionAction as CDA
from microschc.compressor.compressor import compress
from microschc.decompressor.decompressor import decompress
from microschc.crypto.crc import crc32c
from microschc.protocol import ComputeFunctions

src = bytes.fromhex('20010db8000000000000000000000001'); dst = bytes.fromhex('20010db8000000000000000000000002')
data = b'\x01\x02\x03\x04'
chunk = struct.pack('!BBHIHHI', 0, 3, 16 + len(data), 7, 1, 2, 0) + data
def sctp(ck): return struct.pack('!HHI', 1234, 5678, 0xdeadbeef) + ck + chunk
def rfc_crc32c(b):
    crc = 0xffffffff
    for x in b:
        crc ^= x
        for _ in range(8):
            crc = (crc >> 1) ^ (0x82f63b78 if crc & 1 else 0)
    return struct.pack('<I', crc ^ 0xffffffff)
s = sctp(rfc_crc32c(sctp(b'\0\0\0\0')))
ulen = 8 + len(s)
def udp(ck): return struct.pack('!HHHH', 5000, 132, ulen, ck) + s
def csum(b):
    if len(b) % 2: b += b'\0'
    t = sum(struct.unpack('!%dH' % (len(b) // 2), b))
    while t >> 16: t = (t & 0xffff) + (t >> 16)
    return (~t) & 0xffff
pseudo = src + dst + struct.pack('!IHBB', ulen, 0, 0, 17)
u = udp(csum(pseudo + udp(0)) or 0xffff)
packet = struct.pack('!IHBB', 6 << 28, ulen, 17, 64) + src + dst + u
pd = factory('IPv6').parse(Buffer(content=packet, length=8 * len(packet)))
ids = [f.id for f in pd.fields]
print('fields', len(ids), [str(getattr(i, 'value', i)) for i in ids], file=sys.stderr)
fds = []
for f in pd.fields:
    comp = f.id in ComputeFunctions
    fds.append(RuleFieldDescriptor(id=f.id, length=f.value.length if comp else 0, position=0, direction=DirectionIndicator.BIDIRECTIONAL,
               target_value=Buffer(content=b'', length=0), matching_operator=MO.IGNORE,
               compression_decompression_action=CDA.COMPUTE if comp else CDA.VALUE_SENT))
rule = RuleDescriptor(id=Buffer(content=b'\x02', length=2), field_descriptors=fds)
sp = compress(pd, rule)
out = decompress(sp, rule)
print('packet', list(packet)); print('bits', 8 * len(packet))
print('schc', list(sp.content), sp.length, sp.padding)
print('out == packet', out.content == packet, out.length, out.padding)
print('out', list(out.content))
print('computed positions', [(i, str(f.id.value)) for i, f in enumerate(pd.fields) if f.id in ComputeFunctions])
print('field lengths', [f.value.length for f in pd.fields], 'payload', pd.payload.length)
