#!/usr/bin/env python3
"""Regenerates the 'fixed' section of known_findings.json from /repo's git log (fix: commits) and the table below.
The 'open' section is edited by hand and preserved.  Never run by a check."""
import json, os, subprocess
V = os.path.dirname(os.path.dirname(os.path.abspath(__file__)))
# subject prefix -> (properties, what failed)
T = [
 ("fix: Buffer constructor keeps stray content", ["C05", "C13"], "Buffer(b'\\xff', 0) kept one byte of content and compared unequal to the empty buffer"),
 ("fix: right shift of a right-padded Buffer", ["C06", "C04"], "Buffer(b'\\xab\\xc0',10,RIGHT).shift(3) gave 0110000 instead of 1010101 (also reached through MSB matching of right-padded fields)"),
 ("fix: chunks(n, padding=True)", ["C06"], "chunks(17, padding=True) on a 16-bit buffer returned a 16-bit chunk"),
 ("fix: value() and ~ raise IndexError", ["C06"], "value() and ~ on the empty buffer raised IndexError"),
 ("fix: equal Buffers of different padding sides hash", ["C13", "C04"], "Buffer(b'\\x01',1,LEFT) == Buffer(b'\\x80',1,RIGHT) with different hashes; mappings keyed by one side never matched the other"),
 ("fix: value() and the &, |, ^ operators re-pad", ["C16"], "value() re-padded a right-padded receiver in place; x & y, x | y, x ^ y re-padded y in place"),
 ("fix: a Buffer reloaded from JSON carries its padding", ["C12"], "from_json(Buffer(b'\\x05',3).json()) + Buffer(b'\\x01',1) gave 0101 instead of 1011 (padding stored as str)"),
 ("fix: MSB(x) matches a field shorter", ["C04"], "field 1 matched MSB pattern 100 for a variable-length rule field"),
 ("fix: raising ParserError or UnparserError", ["C14", "C15"], "every raise ParserError(...) raised TypeError"),
 ("fix: ContextManager.compress raises StopIteration", ["C15", "C10"], "no matching rule: FIRST raised StopIteration, BEST returned None"),
 ("fix: variable-length LSB residues", ["C17", "C01", "C03"], "variable-length MSB/LSB fields were announced but never decoded"),
 ("fix: direction-specific field descriptors", ["C18", "C01"], "compress/decompress ignored descriptor directions; only the matcher filtered"),
 ("fix: UDP checksum over IPv4", ["C09", "C01"], "pseudo-header built as 8+16+16 bits; every UDP/IPv4 checksum wrong"),
 ("fix: IPv4 header checksum 0x0000", ["C09"], "header 45 00 00 14 ba eb 00.. (checksum 0x0000) regenerated as 0xFFFF"),
 ("fix: CoAP option length with 16-bit extension", ["C08", "C01"], "option header 5e 00 1f cut after 45 bytes instead of 300"),
 ("fix: SCTP parser hangs or duplicates bits", ["C14", "C07"], "common header + 00 00 00 00 looped forever; chunk 0e 00 00 02 / parameter 00 01 00 01 emitted bits twice; truncated headers parsed from empty slices"),
 ("fix: SACK chunks with gap ack blocks", ["C08", "C14"], "TypeError: FieldDescriptor built without position"),
 ("fix: SCTP parser silently drops bytes", ["C07"], "SHUTDOWN ACK 08 00 00 0c + 8 bytes, SHUTDOWN with 12 value bytes, SACK with trailing bytes: bytes in no field"),
 ("fix: CoAP parser reports a header longer", ["C07"], "44 01 b2 a8 01 02 gave header length 64 for 48 bits of fields"),
 ("fix: SACK chunk announcing more blocks", ["C14", "C07"], "44-byte packet with a SACK announcing 65535 duplicate TSNs accepted with 65535 empty fields"),
 ("fix: a MatchMapping never compares equal", ["C12"], "rules and contexts holding a mapping compared unequal to their JSON reload"),
 ("fix: a rule field descriptor with a match mapping can only be reloaded", ["C12"], "match-mapping / value-sent descriptor: TypeError on reload"),
 ("fix: semantic CoAP option parsing fails", ["C19"], "semantic parse rejected options without value and deltas >= 269"),
 ("fix: un-parsing a semantic CoAP option with an unknown", ["C19"], "TypeError: str - int for 'Option Unknown(n)'"),
 ("fix: un-parsing semantic CoAP options mis-encodes", ["C19"], "length 12 -> OverflowError, delta 13 without extended byte, 16-bit extensions little-endian, empty value field emitted"),
 ("fix: PacketParser.unparse reads .id", ["C19"], "AttributeError on (id, value) tuples; payload entry dropped"),
 ("fix: the front end compresses for the uplink direction", ["C15", "C18"], "SCHC.compress used the Up/Bi descriptors, SCHC.decompress all descriptors: a rule with a Dw descriptor did not round-trip through the front end (found by the C15 check under seed 2)"),
 ("fix: looking up a SCHC packet in an empty rule set", ["C11", "C15", "C20"], "Ruler([]).match_schc_packet(Buffer(b'\\x12', 8)) raised UnboundLocalError (loop variable read after a loop that never ran); a context without rules made ContextManager.decompress and the front end fail instead of falling through (the proof of c11_none needed the hypothesis rules <> [], which sent us to run the code there)"),
 ("fix: compute the UDP checksum after the checksum of an SCTP packet", ["C09", "C01"], "UDP datagram to port 132 carrying an SCTP packet (predictive parsers), rule computing both the UDP and the SCTP checksum: the UDP checksum was computed over the zeroed SCTP checksum placeholder (found when UDP port 132 entered the packet generators)"),
]
log = subprocess.run(['git', '-C', '/repo', 'log', '--reverse', '--format=%h\t%s'], stdout=subprocess.PIPE).stdout.decode().strip().split('\n')
fixed, used = [], set()
for line in log:
    h, subj = line.split('\t', 1)
    if not subj.startswith('fix:'):
        continue
    hit = [t for t in T if subj.startswith(t[0])]
    if not hit:
        raise SystemExit('no table entry for commit %s %s' % (h, subj))
    used.add(hit[0][0])
    for p in hit[0][1]:
        fixed.append('fixed: property=%s %s %s' % (p, h, hit[0][2]))
missing = [t[0] for t in T if t[0] not in used]
if missing:
    raise SystemExit('table entries without commit: %s' % missing)
p = os.path.join(V, 'known_findings.json')
old = json.load(open(p)) if os.path.exists(p) else {}
kf = {'_comment': "open: genuine defects recorded rather than repaired (a check prints KNOWN-FINDING for them and still reports any other violation of the property). fixed: repaired by a 'fix:' commit in /repo; a fixed entry suppresses nothing. This file is never written at run time.",
      'open': old.get('open', []), 'fixed': fixed}
json.dump(kf, open(p, 'w'), indent=1)
print('%d fixed entries from %d fix commits, %d open' % (len(fixed), len(used), len(kf['open'])))
