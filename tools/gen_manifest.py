#!/usr/bin/env python3
"""Regenerates /verif/MANIFEST.json from the table below (kept in one place so that it stays valid)."""
import json, os
V = os.path.dirname(os.path.dirname(os.path.abspath(__file__)))
BASE_NOTE = ('Trusted: Coq 8.16.1 kernel; extraction (ExtrOcamlBasic only) + OCaml driver; the Python harness; the hand-written '
             'Gallina model, tied to /repo only by the correspondence check run by this command (differential testing on '
             'generated inputs; model mirrors the code branch for branch). No axioms: every theorem in coq/props/<id>.v is '
             'printed by Print Assumptions (closed under the global context).')
CHECKS = {
 'C05': ('Theorems c05_* (coq/props/C05.v): on the byte-level model of buffer.py, construction, iteration, slicing, indexing, '
         'slice assignment, concatenation (all nine branches), re-padding and copying of canonical buffers of either padding side '
         'return canonical buffers denoting exactly the corresponding list operation on the bit sequence, for all lengths/contents/cut '
         'points (induction over byte lists read as big-endian numbers). Tie to the code: every run executes the implementation, '
         'the extracted model and a plain bit-string oracle on ~23k (quick) / ~100k (thorough) enumerated cases incl. operand post-states.',
         'proof by refinement (byte-level model -> bit lists) + model/code correspondence', '7 C05'),
 'C06': ('Theorems c06_* : shifts (both directions, both sides, in place or not), and/or/xor/invert, value(), chunks(n, padding) of the '
         'byte-level model equal the list-level operation (append zeros / drop last bits / map2 / Z_of_bits / n-bit pieces) for all inputs; '
         'results canonical. Correspondence + oracle on all shifts in [-(N+8), N+8], chunk sizes 1..40, all side combinations.',
         'proof by refinement + model/code correspondence', '7 C06'),
 'C13': ('Theorems c13_*: == is equality of bit sequences whatever the sides; equal buffers have equal hash keys; a dict keyed by Buffers '
         '(CPython lookup: hash then ==) behaves as an association list keyed by bit sequences (found through any equal buffer). '
         'Correspondence + oracle on all pairs up to 5/7 bits x 4 side combinations, random long ones, dict/set probes, Buffer==bytes.',
         'proof by refinement + model/code correspondence', '7 C13'),
 'C16': ('PARTIAL by nature. Theorems c16_*: the value returned by shift/pad is independent of the inplace flag, copy is the identity, '
         'the effect model returns the receiver unchanged for copying calls, and a manager answers any history like a fresh one (true by '
         'construction of a functional model). The weight is carried by the harness: every operand of every Buffer operation is '
         'snapshotted before/after (30k cases), and a long-lived ContextManager is compared call by call with fresh ones while all '
         'reachable Buffers of packets, rules and context are deep-snapshotted.',
         'proof (effect model) + snapshot differential testing', '7 C16'),
 'C17': ('Theorems c17_*: encode_length n = the RFC 8724 7.4.2 announcement (4/12/28 bits) for every n < 65536, decode_var of '
         'announcement ++ residue ++ anything returns the residue and consumes exactly width+n bits, announcements are prefix-free, '
         'and a variable-length value-sent/LSB field is rebuilt from its residue with exactly the residue consumed. Correspondence + '
         'RFC oracle on every size (thorough) or 0..400 + boundaries (quick), and field-level round trips with bits before and after.',
         'proof (arithmetic on bit lists) + model/code correspondence', '7 C17'),
}
ALL = ['C%02d' % i for i in range(1, 21)]
checks = []
for pid in ALL:
    if pid in CHECKS:
        text, tech, ref = CHECKS[pid]
        checks.append({
            'property_id': pid,
            'quick_cmd': './check %s --tier quick' % pid,
            'thorough_cmd': './check %s --tier thorough' % pid,
            'evidence_file': 'evidence/%s.json' % pid,
            'replay_cmd_template': './check %s --replay {path}' % pid,
            'engine': 'coq-proofs+model-runner+py-harness',
            'level_claimed': {'category': 'proof', 'text': text, 'design_ref': 'DESIGN.md section ' + ref},
            'level_note': BASE_NOTE,
            'technique': tech,
        })
na = [{'property_id': p, 'reason': 'check under construction in this session (model exists; harness/props not yet registered)'} for p in ALL if p not in CHECKS]
m = {
 'version': 1,
 'setup_cmd': 'make -C /verif setup',
 'hooks': {'guard': 'MICROSCHC_VERIF', 'enable': 'no source hooks are needed: every property is observable through public functions; ./check exports MICROSCHC_VERIF=1 for uniformity',
           'baseline_off_cmd': 'cd /repo && /venv/bin/python -m pytest -ra -q -p no:cacheprovider --timeout=900 --continue-on-collection-errors',
           'source_commits': [], 'add_only': True},
 'engines': [
   {'name': 'coq-proofs', 'path': 'coq/', 'serves_properties': sorted(CHECKS), 'kind_free_text': 'Gallina model of microschc + theorems (Coq 8.16.1, stdlib only), full .vo build'},
   {'name': 'model-runner', 'path': 'coq/extract/', 'serves_properties': sorted(CHECKS), 'kind_free_text': 'model extracted to OCaml (ExtrOcamlBasic) + line-protocol driver'},
   {'name': 'py-harness', 'path': 'harness/', 'serves_properties': sorted(CHECKS), 'kind_free_text': 'generators, implementation runner, oracles, comparison, evidence'},
 ],
 'checks': checks,
 'not_applicable': na,
 'notes': 'fix: commits in /repo are listed in known_findings.json (fixed entries); see DESIGN.md section 8.',
}
json.dump(m, open(os.path.join(V, 'MANIFEST.json'), 'w'), indent=1)
print('MANIFEST.json written: %d checks, %d not_applicable' % (len(checks), len(na)))
