#!/usr/bin/env python3
"""Regenerates /verif/MANIFEST.json from the table below (kept in one place so that it stays valid)."""
import json, os
V = os.path.dirname(os.path.dirname(os.path.abspath(__file__)))
BASE_NOTE = ('Trusted: Coq 8.16.1 kernel; extraction (ExtrOcamlBasic only) + OCaml driver; the Python harness; the hand-written '
             'Gallina model, tied to /repo only by the correspondence check run by this command (differential testing on '
             'generated inputs; model mirrors the code branch for branch). No axioms: every theorem in coq/props/<id>.v is '
             'printed by Print Assumptions (closed under the global context).')
CHECKS = {
 'C05': ('Theorems c05_* (coq/props/C05.v): on the byte-level model of buffer.py, construction, iteration, slicing, indexing, '
         'slice assignment, concatenation (all nine branches), re-padding and copying of canonical buffers of either padding side '
         'return canonical buffers denoting exactly the corresponding list operation on the bit sequence, for all lengths/contents/cut '
         'points (induction over byte lists read as big-endian numbers). Tie to the code: every run executes the implementation, '
         'the extracted model and a plain bit-string oracle on ~23k (quick) / ~100k (thorough) enumerated cases incl. operand post-states. '
         'c05_getitem/add/setitem/copy/index/setint/pad_copy_objects: the same for Buffer objects in any heap (operands may be one object), with what became of the other objects.',
         'proof by refinement (byte-level model -> bit lists) + model/code correspondence', '7 C05'),
 'C06': ('Theorems c06_* : shifts (both directions, both sides, in place or not), and/or/xor/invert, value(), chunks(n, padding) of the '
         'byte-level model equal the list-level operation (append zeros / drop last bits / map2 / Z_of_bits / n-bit pieces) for all inputs; '
         'results canonical. c06_shift_left/right/and/or/xor/invert/value/chunks_objects: the same for Buffer objects in any heap (in place: the receiver holds the result, no other object changes). '
         'Correspondence + oracle on all shifts in [-(N+8), N+8], chunk sizes 1..40, all side combinations.',
         'proof by refinement + model/code correspondence', '7 C06'),
 'C13': ('Theorems c13_*: == is equality of bit sequences whatever the sides; equal buffers have equal hash keys; a dict keyed by Buffers '
         '(CPython lookup: hash then ==) behaves as an association list keyed by bit sequences (found through any equal buffer). '
         'c13_eq/hash_objects: the same for Buffer objects in any heap, comparing or hashing changes no object. c13_match_mapping_bytes/_found: the byte-level match-mapping operator finds a value exactly when a key has its bits, whatever the sides. '
         'Correspondence + oracle on all pairs up to 5/7 bits x 4 side combinations, random long ones, dict/set probes, Buffer==bytes.',
         'proof by refinement + model/code correspondence', '7 C13'),
 'C16': ('Theorems c16_* about TWO models. (I) BufferHeap.v / SchcHeap.v / ParserHeap.v / ManagerHeap.v / ComputeHeap.v: the Buffer class, and compress / decompress with its compute stage / '
         'field matching / rule-id dispatch / the parsers of all seven configurations / ContextManager / the front end, written over a heap of mutable Buffer OBJECTS (attribute reads and assignments, constructor calls, '
         'returned identities, exactly where the Python source has them). Proved for ALL heaps, references, arguments and outcomes incl. '
         'exceptions: an operation that is not explicitly in place only appends new objects (no existing object changes in any attribute), an '
         'in-place one changes at most its receiver, results of non-in-place operations are new objects, programs of any length inherit this, '
         'and every object-level function computes what the value-level model (Buffer.v / SchcBytes.v, run raw against the code) computes, also '
         'under aliasing. The Buffer heap model is itself run against the implementation: programs of 40 method calls on live objects, outcome, '
         'identity of the returned object and all four attributes of every held object compared after every step. (II) value level: shift/pad '
         'independent of the inplace flag, copy is the identity, a manager answers any history like a fresh one. PARTIAL above the Buffer class: '
         'rules, contexts, descriptors, module-level tables of the real process are covered by the harness only (deep snapshots before/after every '
         'call, long-lived managers and front ends against fresh ones, process-level histories across stacks, module-table snapshots).',
         'proof (heap model: frame, freshness, refinement) + model/code correspondence on object programs + snapshot differential testing', '7 C16'),
 'C17': ('Theorems c17_*: encode_length n = the RFC 8724 7.4.2 announcement (4/12/28 bits) for every n < 65536, decode_var of '
         'announcement ++ residue ++ anything returns the residue and consumes exactly width+n bits, announcements are prefix-free, '
         'and a variable-length value-sent/LSB field is rebuilt from its residue with exactly the residue consumed. Correspondence + '
         'RFC oracle on every size (thorough) or 0..400 + boundaries (quick), and field-level round trips with bits before and after. Byte level (c17_*_bytes): bencode_length / bdecode_var as written on Buffers: canonical left-padded announcement with the RFC bits and width, round trip whatever the padding side of what follows (also when fewer bits follow than announced), prefix-freeness.',
         'proof (arithmetic on bit lists) + model/code correspondence', '7 C17'),

 'C01': ('Theorems c01_* : for a packet descriptor and a rule that applies to it (matcher = applicability predicate, C04) and is lossless by '
         'construction (rule_ok_dec: the five pairings, rule length 0 or the field length, sizes < 65536, well-formed mappings), compress '
         'yields the RFC layout and decompress of it returns fields ++ payload; with compute fields under the premise that the compute '
         'stage regenerates the carried values (C09); through cm_compress/cm_decompress for FIRST and BEST with prefix-free ids; the '
         'parser tiling premise is discharged by C07 for all registry stacks. Tie: round trips executed on the implementation for all '
         'parser configurations, every step compared with the extracted model (incl. the model parser). Byte level (c01_bytes_*): from the raw packet Buffer through the byte-level parsers, matcher, manager, compress and decompress with the compute stage (models written with the Buffer operations the code performs, proved to refine the bit level, and run raw-exact against the code) the packet Buffer comes back; compute premise discharged for IPv6/UDP, IPv4/UDP, bare SCTP, IPv6/SCTP, IPv4/SCTP and SCTP carried in UDP under IPv6 / IPv4 (c01_stack_*, c01_bytes_stack_*: any subset of lengths and checksums computed; the UDP checksum covers the correct SCTP checksum because list.sort runs the SCTP checksum first, proved for every subset).',
         'proof by composition (layout, inversion, dispatch) + model/code correspondence', '7 C01'),
 'C02': ('Theorem c02_layout: whenever the declarative RFC 8724 section 7 layout is defined for (packet, rule, direction), compress returns '
         'exactly it (rule id, residues in rule order incl. 4/12/28-bit sizes of variable-length residues, payload); no-compression rules '
         'give id ++ packet. Tie: compress on parsed packets of every stack and synthetic descriptors vs extracted model vs independent '
         'bit-string reference compressor.', 'proof by induction over the rule fields + model/code correspondence', '7 C02'),
 'C03': ('Theorems c03_*: from the residue the specification prescribes for a legal (descriptor, value) pair, followed by ANY bits, '
         'decompress_field rebuilds the value and consumes exactly the residue (all CDAs, fixed/variable lengths over the three size '
         'encodings, mappings with prefix-free indices of mixed width); lifted to all fields, to the whole packet with payload, with the '
         'compute stage running over the rebuilt list. Tie: SCHC packets built by the harness from the RFC layout (never by the '
         'library\'s compressor), incl. empty / non-aligned payloads, vs extracted model vs independent reference decompressor. Byte level: c03_decompress_bytes_compute / _exception: the byte-level decompressor with compute stage gives the same packet or the same exception for every rule; c03_decompress_sort covers rules whose compute entries list.sort reorders.',
         'proof by induction over the rule fields + model/code correspondence', '7 C03'),
 'C04': ('Theorem c04_match: for typed rules the generator of the matcher equals the list of rules satisfying the applicability predicate '
         'of the statement, in rule-set order (soundness, completeness, order in one equation); no-compression rules always apply. '
         'Tie: near-miss mutants (one or two edits) x both directions x either padding side vs extracted model vs the predicate. Byte level: c04_match_bytes (the matcher on Buffers yields the same rules in the same order).',
         'proof (matcher = filter of a declarative predicate) + model/code correspondence', '7 C04'),
 'C07': ('Theorems c07_*: for EVERY bit string, whenever a header parser accepts, its field values in order are exactly the first '
         '(header length) bits and the header length does not exceed the buffer; for all 7 registry configurations fields ++ payload = input. '
         'Tie: parse of well-formed packets and of the malformed stream (truncations, flips, overwritten length fields, random) vs extracted '
         'model, tiling judged on the implementation incl. per-header reported lengths. Byte level: c07_packet_bytes, c07_bytes_refine (byte-level parsers tile the packet Buffer and refine the bit-level ones).', 'proof by loop invariants over fuelled parsers + model/code correspondence', '7 C07'),
 'C09': ('Theorems c09_*: each compute function of the model returns the RFC-defined value (RFC-side definitions written independently in '
         'RfcChecksum.v): byte lengths, IPv4 header checksum and UDP checksum over IPv6/IPv4 pseudo-headers as one\'s complement arithmetic '
         'modulo 65535 (fold with end-around carry proved equal to it), CRC-32c table entries equal to the bit-serial definition (complete '
         'finite check lifted) and table-driven loop equal to the bit-serial register. Tie: compute functions called directly and through '
         'decompress on packets with independently computed checksums incl. 0x0000/0xFFFF corner values vs extracted model. Byte level: c09_bytes_table (the functions as written on Buffers refine them, same dependency sets); order of execution = CPython list.sort modelled in PySort.v (c09_sort_*, c09_udp_after_sctp).',
         'proof (arithmetic mod 65535, GF(2) linearity of CRC) + model/code correspondence', '7 C09'),
 'C10': ('Theorems c10_*: FIRST = compress with the first applying rule (or the rule-match error); BEST = output of an applying rule, no '
         'applying rule shorter, ties to the earliest; BEST <= FIRST; a no-compression rule always applies, so a set containing one compresses every parsable packet, under BEST to at most id length + packet length bits (c10_default_best, _best_stack, _best_bytes, _first). Tie: ContextManager.compress on '
         'rule sets of 1..8 rules x FIRST/BEST x Up/Dw vs extracted model (model parser+matcher+compressor) vs reference selection. Byte level: c10_manager_bytes (ContextManager.compress on Buffers has the outcome of the bit-level manager).',
         'proof (list minimum with strict comparison) + model/code correspondence', '7 C10'),
 'C11': ('Theorems c11_*: with prefix-free ids of any lengths the rule whose id leads the bit string is returned whatever follows; no id a '
         'prefix (incl. shorter strings, incl. the EMPTY rule set since the fix of the unbound loop variable) gives RuleIDMatchError; a returned rule is the first whose id is a prefix. Tie: every prefix code '
         'of total length <= 5 (quick) / 6 (thorough) in every order x every string <= 7 bits, random codes to 16 bits. Byte level: c11_found_bytes, c11_manager_bytes, c11_compressed_bytes.',
         'proof (prefix comparability) + exhaustive small-scope correspondence', '7 C11'),
 'C14': ('Theorems c14_*: for EVERY bit string each header parser and each registry configuration of the model returns a descriptor or '
         'ParserError: never Diverge (loops run on fuel = bit length + 1; each CoAP option consumes >= 8 bits, each SCTP chunk / parameter '
         '>= 32), never another exception. Tie: malformed stream on the implementation with a limit of 20 s CPU time per call vs extracted model. Byte level: c14_stack_bytes (the byte-level parsers are total on canonical left-padded buffers).',
         'proof of totality with explicit fuel + model/code correspondence', '7 C14'),
 'C15': ('Theorems c15_*: no applying rule gives RuleDescriptorMatchError under FIRST and BEST, an unparsable packet gives the parser\'s error, '
         'no leading rule id gives RuleIDMatchError; the front end skips contexts signalling these errors in order, takes the first other '
         'outcome, and returns the packet unchanged when none applies; a context without any rule is skipped like the others; what the front end compresses it decompresses back when rule ids are prefix-free across the contexts (c15_front_roundtrip, _c01, _bytes, _ctx_bytes). Tie: manager error cases and front-end histories over 1..4 contexts (some without rules, strategies also given by value) '
         'vs extracted model. Byte level: c15_nomatch_bytes, c15_noid_bytes, c15_front_compress_bytes, c15_front_decompress_bytes.', 'proof (case analysis of the front-end loops) + model/code correspondence', '7 C15'),
 'C18': ('Theorems c18_*: the descriptors used for direction d are exactly those marked d or Bi in rule order, by the matcher, compress and '
         'decompress alike (same select function), and such a rule round-trips packets of direction d. Tie: rules with Up/Dw alternatives at '
         'every position x both directions through the bare functions and the ContextManager vs extracted model; descriptor lists of different lengths per direction. Byte level: c18_select_bytes, c18_matcher_bytes, c18_roundtrip_bytes (bselect_fds, brule_matches, bcompress / bdecompress on Buffers).',
         'proof (common selection function) + model/code correspondence', '7 C18'),
 'C20': ('Theorems c20_*: for rules well-formed for decompression (typed target values, compute fields with protocol lengths inside a '
         'supported stack shape, bounded static bits) and EVERY bit string shorter than 65000 bytes, decompress returns a buffer; through the '
         'manager: a buffer or RuleIDMatchError. The static bound is shown necessary by a witness. Tie: truncations, bit flips, size '
         'escapes, random strings through ContextManager.decompress (20 s CPU-time limit per call), empty rule sets included vs extracted model. Byte level: c20_rule_total_bytes, c20_manager_total_bytes, c20_front_total_bytes (manager and front end on Buffers).',
         'proof of totality (per-function totality lemmas, shape invariant of the compute stage) + model/code correspondence', '7 C20'),

 'C12': ('Theorems c12_*: for canonical buffers, mappings with pairwise different values and indices, and objects built from them, '
         'from_json(to_json x) = x (Leibniz equality of the model records, hence identical behaviour and identical re-serialisation) for '
         'Buffer (through the byte-level constructor), MatchMapping (reverse dict comprehension and reload through the dict model), field / '
         'header / packet descriptors, rule field descriptors (target value type chosen from the JSON value), rules and contexts. json.dumps/loads, '
         'hex and enum<->str conversions trusted. Tie: JSON text and round-trip flags of every class vs extracted model; on the implementation: '
         '==, re-serialisation, Padding membership of reloaded paddings, and managers on original vs reloaded contexts give bit-identical results.',
         'proof (structural round trip through the dict model) + model/code correspondence', '7 C12'),

 'C08': ('Theorems c08_*: for every well-formed structured message (RfcHeaders.v, written from RFC 8200/791/768/7252/9260 independently of the '
         'model) parse(encode m) = the prescribed field list (identifiers, order, occurrence positions, lengths, values) and header length: '
         'fixed IPv6/IPv4/UDP headers followed by anything, CoAP with token 0..8 and any option list over the three delta/length classes, '
         'SCTP with every chunk type, parameters and padding, the two explicit stacks, and the predictive parsers (agreeing with the explicit '
         'stacks). Tie: protocol-aware generators vs extracted model vs independent reference field lists in Python. Byte level (c08_*_bytes): the byte-level parsers on ANY canonical left-padded Buffer spelling the encoded message return canonical field Buffers with exactly the RFC ids, positions and bits.',
         'proof (parser inverts the RFC encoder, induction over options / chunks / parameters) + model/code correspondence', '7 C08'),
 'C19': ('Theorems c19_*: for every well-formed CoAP message, semantic parsing returns one field per option named after its number with its '
         'value, un-parsing those fields returns exactly the syntactic field sequence (ids and values), hence parse-semantic then unparse '
         'equals parse-syntactic. Tie: option sequences over known/unknown numbers, every delta and length class incl. 12/13/268/269, repeats, '
         'with/without payload: semantic parse and unparse vs extracted model, unparse vs syntactic parse, plus the whole pipeline through '
         'PacketParser / compress / decompress with un-parser. Byte level: c19_bytes_parse, c19_bytes_unparse, c19_bytes_lossless (semantic parser and un-parser on Buffers refine the bit level; exact byte-level equality of unparse(semantic parse) with the syntactic parse).',
         'proof (unparse inverts the semantic view, induction over options) + model/code correspondence', '7 C19'),
}
ALL = ['C%02d' % i for i in range(1, 21)]
checks = []
for pid in ALL:
    if pid in CHECKS:
        text, tech, ref = CHECKS[pid]
        checks.append({
            'property_id': pid,
            'quick_cmd': './check %s --tier quick' % pid,
            'thorough_cmd': './check %s --tier thorough' % pid,
            'evidence_file': 'evidence/%s.json' % pid,
            'replay_cmd_template': './check %s --replay {path}' % pid,
            'engine': 'coq-proofs+model-runner+py-harness',
            'level_claimed': {'category': 'proof', 'text': text, 'design_ref': 'DESIGN.md section ' + ref},
            'level_note': BASE_NOTE,
            'technique': tech,
        })
na = [{'property_id': p, 'reason': 'check under construction in this session (model exists; harness/props not yet registered)'} for p in ALL if p not in CHECKS]
m = {
 'version': 1,
 'setup_cmd': 'make -C /verif setup',
 'hooks': {'guard': 'MICROSCHC_VERIF', 'enable': 'no source hooks are needed: every property is observable through public functions; ./check exports MICROSCHC_VERIF=1 for uniformity',
           'baseline_off_cmd': 'cd /repo && /venv/bin/python -m pytest -ra -q -p no:cacheprovider --timeout=900 --continue-on-collection-errors',
           'source_commits': [], 'add_only': True},
 'engines': [
   {'name': 'coq-proofs', 'path': 'coq/', 'serves_properties': sorted(CHECKS), 'kind_free_text': 'Gallina model of microschc + theorems (Coq 8.16.1, stdlib only), full .vo build'},
   {'name': 'model-runner', 'path': 'coq/extract/', 'serves_properties': sorted(CHECKS), 'kind_free_text': 'model extracted to OCaml (ExtrOcamlBasic) + line-protocol driver'},
   {'name': 'py-harness', 'path': 'harness/', 'serves_properties': sorted(CHECKS), 'kind_free_text': 'generators, implementation runner, oracles, comparison, evidence'},
 ],
 'checks': checks,
 'not_applicable': na,
 'notes': 'fix: commits in /repo are listed in known_findings.json (fixed entries); see DESIGN.md section 8.',
}
json.dump(m, open(os.path.join(V, 'MANIFEST.json'), 'w'), indent=1)
print('MANIFEST.json written: %d checks, %d not_applicable' % (len(checks), len(na)))
