"""Validation of the Coq model of list.sort (theories/PySort.v, Schc.py_sort_ces) against CPython.

Run:  cd /tmp/coqsort && PYTHONPATH=/repo /venv/bin/python gen_sort_examples.py > theories/SortExamples.v

1. ComputeEntry lists made of the six real entries of microschc.protocol.ComputeFunctions (ids and
   dependency sets taken from the library), sorted by the library's own comparison
   (decompressor.compute_function_sort through functools.cmp_to_key): the resulting order is printed as
   a Coq Example about Schc.py_sort_ces.
2. Lists 0..n-1 sorted with an ARBITRARY (random, not transitive, not antisymmetric) "less than" matrix:
   printed as Coq Examples about the generic PySort.py_sort.
3. The dependency sets of the library are printed as Coq Examples about Compute.compute_functions.
Besides, a Python transcription of the modelled algorithm (ref_sort below, the same steps as
PySort.py_sort) is compared with sorted() on many random inputs; the script fails if they differ.
"""
import itertools, random, sys
from functools import cmp_to_key

from microschc.protocol import ComputeFunctions
from microschc.protocol.ipv4 import IPv4Fields
from microschc.protocol.ipv6 import IPv6Fields
from microschc.protocol.udp import UDPFields
from microschc.protocol.sctp import SCTPFields
from microschc.decompressor.decompressor import ComputeEntry, compute_function_sort

random.seed(20261001)

# ---- field ids as Coq fids: protocol constructor and rank in the Python enum --------------------------
FID = {}
for proto, enum in (('P_IPv4', IPv4Fields), ('P_IPv6', IPv6Fields), ('P_UDP', UDPFields), ('P_SCTP', SCTPFields)):
    for rank, member in enumerate(enum):
        FID[member.value] = (proto, rank)

def coq_fid(field_id):
    proto, rank = FID[str(field_id.value) if hasattr(field_id, 'value') else field_id]
    return f'mkfid {proto} {rank}'

V4LEN, V4CK, V6LEN = IPv4Fields.TOTAL_LENGTH, IPv4Fields.HEADER_CHECKSUM, IPv6Fields.PAYLOAD_LENGTH
ULEN, UCK, SCK = UDPFields.LENGTH, UDPFields.CHECKSUM, SCTPFields.CHECKSUM
SIX = [V4LEN, V4CK, V6LEN, ULEN, UCK, SCK]
assert set(ComputeFunctions.keys()) == set(SIX)

def entry(pos, fid):
    function, dependencies = ComputeFunctions[fid]
    return ComputeEntry(field_position=pos, field_id=fid, function=function, dependencies=dependencies)

# ---- the modelled algorithm, transcribed step by step (listobject.c of CPython 3.12, n < 64) ----------
def ref_sort(a, lt):
    a = list(a)
    n = len(a)
    assert n < 64
    if n < 2:
        return a
    # count_run
    if lt(a[1], a[0]):
        i = 2
        while i < n and lt(a[i], a[i - 1]):
            i += 1
        a[0:i] = a[0:i][::-1]
    else:
        i = 2
        while i < n and not lt(a[i], a[i - 1]):
            i += 1
    # binarysort
    for start in range(i, n):
        pivot = a[start]
        l, r = 0, start
        while l < r:
            p = l + ((r - l) >> 1)
            if lt(pivot, a[p]):
                r = p
            else:
                l = p + 1
        a[l + 1:start + 1] = a[l:start]
        a[l] = pivot
    return a

def check_ref():
    # arbitrary relations
    for _ in range(40000):
        n = random.randrange(0, 64)
        dens = random.random()
        m = [[random.random() < dens for _ in range(n)] for _ in range(n)]
        got = sorted(range(n), key=cmp_to_key(lambda i, j: -1 if m[i][j] else random.choice((0, 1, 5))))
        assert got == ref_sort(range(n), lambda i, j: m[i][j]), (n, m)
    # the real comparison on random entry lists
    for _ in range(40000):
        n = random.randrange(0, 64)
        es = [entry(random.randrange(0, 40), random.choice(SIX)) for _ in range(n)]
        got = sorted(es, key=cmp_to_key(compute_function_sort))
        exp = ref_sort(es, lambda x, y: compute_function_sort(x, y) < 0)
        assert [id(e) for e in got] == [id(e) for e in exp]
        # list.sort in place, as the decompressor calls it
        es2 = list(es); es2.sort(key=cmp_to_key(compute_function_sort))
        assert [id(e) for e in es2] == [id(e) for e in exp]

check_ref()

# ---- cases with the real entries ---------------------------------------------------------------------
cases = []   # (name, comment, [(pos, fid)])
def add(name, comment, l):
    cases.append((name, comment, list(l)))

stacks = {
    'v6_udp':       [(3, V6LEN), (10, ULEN), (11, UCK)],
    'v4_udp':       [(3, V4LEN), (9, V4CK), (14, ULEN), (15, UCK)],
    'v6_udp_sctp':  [(3, V6LEN), (10, ULEN), (11, UCK), (15, SCK)],
    'v4_udp_sctp':  [(3, V4LEN), (9, V4CK), (14, ULEN), (15, UCK), (19, SCK)],
    'v6_sctp':      [(3, V6LEN), (11, SCK)],
    'v4_sctp':      [(3, V4LEN), (9, V4CK), (15, SCK)],
    'udp_sctp':     [(2, ULEN), (3, UCK), (7, SCK)],
    'udp_ck_sctp':  [(3, UCK), (7, SCK)],
    'sctp_only':    [(3, SCK)],
    'empty':        [],
}
for k, l in stacks.items():
    add(f'order_{k}', f'rule in packet order: {k}', l)
# every permutation of the IPv6/UDP/SCTP entries, of the bare UDP/SCTP entries
for n, p in enumerate(itertools.permutations(stacks['v6_udp_sctp'])):
    add(f'perm_v6_udp_sctp_{n}', 'a permutation of the IPv6/UDP/SCTP entries', p)
for n, p in enumerate(itertools.permutations(stacks['udp_sctp'])):
    add(f'perm_udp_sctp_{n}', 'a permutation of the UDP/SCTP entries', p)
# some permutations of the IPv4/UDP/SCTP entries (the fully reversed one included)
perms5 = list(itertools.permutations(stacks['v4_udp_sctp']))
add('perm_v4_udp_sctp_rev', 'IPv4/UDP/SCTP entries, reversed', perms5[-1])
for n, p in enumerate(random.sample(perms5, 20)):
    add(f'perm_v4_udp_sctp_{n}', 'a permutation of the IPv4/UDP/SCTP entries', p)
# duplicates: the same id at several positions, the same (position, id) twice, arbitrary positions
for n in range(30):
    k = random.randrange(2, 14)
    add(f'dups_{n}', 'random ids (repeated), random positions (repeated)',
        [(random.randrange(0, 24), random.choice(SIX)) for _ in range(k)])
for n in range(6):
    k = random.randrange(3, 10)
    l = [(random.randrange(0, 24), random.choice([ULEN, UCK, SCK])) for _ in range(k)]
    add(f'dups_udp_sctp_{n}', 'UDP length / UDP checksum / SCTP checksum only, repeated', l)
# long lists: 63 entries are sorted, 64 are outside the model
add('long_63', '63 entries', [(random.randrange(0, 80), random.choice(SIX)) for _ in range(63)])
add('long_63_desc', '63 entries, positions descending', [(100 - i, random.choice([V4LEN, V6LEN, ULEN])) for i in range(63)])
long64 = [(i, V6LEN) for i in range(64)]

def coq_entries(l):
    return '[' + '; '.join(f'E {pos} ({coq_fid(fid)})' for pos, fid in l) + ']'
def coq_order(l):
    return '[' + '; '.join(f'({pos}, {coq_fid(fid)})' for pos, fid in l) + ']'

out = []
w = out.append
w('(* SortExamples.v -- GENERATED by gen_sort_examples.py (do not edit): the model of list.sort compared with CPython.')
w(f'   Python {sys.version.split()[0]}; the orders below are what sorted(entries, key=cmp_to_key(compute_function_sort))')
w('   returns for ComputeEntry lists built from microschc.protocol.ComputeFunctions, and what')
w('   sorted(range(n), key=cmp_to_key(...)) returns for arbitrary "less than" matrices. *)')
w('From Coq Require Import ZArith List Bool.')
w('From MS Require Import PyBase Bits PySort Schc Compute.')
w('Import ListNotations.')
w('Open Scope Z_scope.')
w('')
w('Definition dummy_fn : compute_fn := fun _ _ => Exc Unmodelled.')
w('(* ComputeEntry(position, id, ComputeFunctions[id][0], ComputeFunctions[id][1]) *)')
w('Definition E (pos : Z) (f : fid) : centry :=')
w('  match compute_functions f with Some (_, deps) => mkcentry pos f dummy_fn deps | None => mkcentry pos f dummy_fn [] end.')
w('Definition order (o : option (list centry)) : option (list (Z * fid)) :=')
w('  option_map (map (fun e => (ce_pos e, ce_id e))) o.')
w('Definition same_fids (a b : list fid) : bool :=')
w('  forallb (fun x => in_fids x b) a && forallb (fun x => in_fids x a) b && (length a =? length b)%nat.')
w('Definition deps_of (f : fid) : list fid := match compute_functions f with Some (_, deps) => deps | None => [] end.')
w('')
w('(* ---- the dependency sets of the library (protocol/__init__.py ComputeFunctions) ------------------------- *)')
for fid in SIX:
    deps = sorted(ComputeFunctions[fid][1], key=lambda d: FID[str(d.value) if hasattr(d, 'value') else d])
    name = coq_fid(fid).replace('mkfid ', '').replace(' ', '_')
    w(f'(* {fid.value}: {len(deps)} dependencies *)')
    w(f'Example deps_{name} : same_fids (deps_of ({coq_fid(fid)})) [' + '; '.join(coq_fid(d) for d in deps) + '] = true.')
    w('Proof. vm_compute. reflexivity. Qed.')
w('(* no other id has a compute function *)')
others = [v for v in FID if v not in [f.value for f in SIX]]
w('Example deps_none : forallb (fun f => match compute_functions f with None => true | Some _ => false end)')
w('  [' + '; '.join(coq_fid(v) for v in others) + '] = true.')
w('Proof. vm_compute. reflexivity. Qed.')
w('')
w('(* ---- ComputeEntry lists --------------------------------------------------------------------------------- *)')
nreal = 0
for name, comment, l in cases:
    es = [entry(pos, fid) for pos, fid in l]
    got = sorted(es, key=cmp_to_key(compute_function_sort))
    res = [(e.field_position, e.field_id) for e in got]
    moved = '' if res == l else ' (reordered)'
    w(f'(* {comment}{moved} *)')
    w(f'Example {name} : order (py_sort_ces {coq_entries(l)}) =')
    w(f'  Some {coq_order(res)}.')
    w('Proof. vm_compute. reflexivity. Qed.')
    nreal += 1
w('(* 64 entries: outside the model *)')
w(f'Example long_64 : py_sort_ces (map (fun i => E (Z.of_nat i) ({coq_fid(V6LEN)})) (seq 0 64)) = None.')
w('Proof. vm_compute. reflexivity. Qed.')
w('')
w('(* ---- arbitrary "less than" relations on 0 .. n-1 (row i, column j: lt i j) -------------------------------- *)')
w('Definition mlt (n : nat) (m : list bool) (i j : nat) : bool := nth (i * n + j) m false.')
ngen = 0
sizes = [2, 3, 3, 4, 4, 5, 5, 6, 7, 8, 9, 10, 12, 14, 16, 20, 24, 31, 32, 33, 40, 48, 63, 63]
for idx, n in enumerate(sizes):
    dens = [0.5, 0.2, 0.8][idx % 3]
    m = [[random.random() < dens for _ in range(n)] for _ in range(n)]
    if idx % 4 == 1:
        # force a long strictly descending initial run
        k = random.randrange(2, n + 1)
        for i in range(1, k):
            m[i][i - 1] = True
    got = sorted(range(n), key=cmp_to_key(lambda i, j: -1 if m[i][j] else 1))
    flat = '; '.join('true' if m[i][j] else 'false' for i in range(n) for j in range(n))
    flat = flat.replace('true', 'T').replace('false', 'F')
    w(f'Example generic_{idx} : let T := true in let F := false in')
    w(f'  py_sort (mlt {n} [{flat}]) (seq 0 {n}) =')
    w(f'  Some [' + '; '.join(str(x) for x in got) + ']%nat.')
    w('Proof. vm_compute. reflexivity. Qed.')
    ngen += 1
w('')
w(f'(* {nreal} ComputeEntry cases + 1 (64 entries), {ngen} generic cases, {len(SIX) + 1} dependency checks *)')
print('\n'.join(out))
print(f'{nreal} real cases, {ngen} generic cases', file=sys.stderr)
