#!/usr/bin/env python3
"""mutate.py gen <n-per-file> <outdir> [--seed S]      enumerate single-point mutants of the implementation (AST operators), sample, write patches
   mutate.py run <outdir> [--jobs J] [--snap DIR]    for every mutant: scratch copy of the tree, the 82 tests, then the checks mapped to the
                                                     mutated file until one reports a VIOLATION; results in <outdir>/results.jsonl
   mutate.py report <outdir>                         table: killed by the tests / caught by which check / survivors (to be triaged by hand)

A measuring aid for the correspondence check (DESIGN.md 4.5): a mutant that passes the tests and that no check catches is either
equivalent (no observable difference) or names a behaviour of the code the generators never pin down.  Nothing here decides a property."""
import ast, copy, json, os, random, shutil, subprocess, sys, tempfile, time
V = os.path.dirname(os.path.dirname(os.path.abspath(__file__)))
CLEAN = os.environ.get('MUT_BASE', '/tmp/repo_clean')

CHECKS = {
    'microschc/binary/buffer.py': ['C05', 'C06', 'C13', 'C16', 'C12', 'C02', 'C03', 'C01'],
    'microschc/actions/compression.py': ['C02', 'C17', 'C01'],
    'microschc/compressor/compressor.py': ['C02', 'C17', 'C18', 'C01', 'C10'],
    'microschc/decompressor/decompressor.py': ['C03', 'C17', 'C20', 'C09', 'C18', 'C01'],
    'microschc/ruler/ruler.py': ['C04', 'C11', 'C15', 'C18', 'C10'],
    'microschc/manager/manager.py': ['C10', 'C15', 'C16', 'C01'],
    'microschc/matching/operators.py': ['C04', 'C13'],
    'microschc/parser/parser.py': ['C07', 'C08', 'C14', 'C19', 'C01'],
    'microschc/protocol/ipv4.py': ['C08', 'C07', 'C14', 'C09', 'C01'],
    'microschc/protocol/ipv6.py': ['C08', 'C07', 'C14', 'C09', 'C01'],
    'microschc/protocol/udp.py': ['C08', 'C07', 'C14', 'C09', 'C01'],
    'microschc/protocol/coap.py': ['C08', 'C07', 'C14', 'C19', 'C01'],
    'microschc/protocol/sctp.py': ['C08', 'C07', 'C14', 'C09', 'C01'],
    'microschc/protocol/registry.py': ['C08', 'C07', 'C14', 'C10'],
    'microschc/protocol/__init__.py': ['C09', 'C03', 'C20'],
    'microschc/crypto/crc.py': ['C09'],
    'microschc/rfc8724.py': ['C12', 'C04', 'C15', 'C01', 'C02'],
    'microschc/rfc8724extras.py': ['C12', 'C15'],
    'microschc.py': ['C15', 'C16'],
}
CMP = {ast.Lt: ast.LtE, ast.LtE: ast.Lt, ast.Gt: ast.GtE, ast.GtE: ast.Gt, ast.Eq: ast.NotEq, ast.NotEq: ast.Eq, ast.Is: ast.IsNot, ast.IsNot: ast.Is,
       ast.In: ast.NotIn, ast.NotIn: ast.In}
BIN = {ast.Add: ast.Sub, ast.Sub: ast.Add, ast.Mult: ast.FloorDiv, ast.FloorDiv: ast.Mult, ast.LShift: ast.RShift, ast.RShift: ast.LShift,
       ast.BitAnd: ast.BitOr, ast.BitOr: ast.BitAnd, ast.Mod: ast.FloorDiv, ast.BitXor: ast.BitAnd}


class Points(ast.NodeVisitor):
    """enumerate mutation points as (kind, node index in ast.walk order, variant)"""

    def __init__(self):
        self.pts = []

    def collect(self, tree):
        for idx, n in enumerate(ast.walk(tree)):
            if isinstance(n, ast.Compare) and len(n.ops) == 1 and type(n.ops[0]) in CMP:
                self.pts.append(('cmp', idx, 0))
            elif isinstance(n, ast.BinOp) and type(n.op) in BIN and not (isinstance(n.left, ast.Constant) and isinstance(n.left.value, str)) \
                    and not isinstance(n.left, ast.JoinedStr) and not isinstance(n.right, ast.JoinedStr):
                self.pts.append(('bin', idx, 0))
            elif isinstance(n, ast.BoolOp):
                self.pts.append(('bool', idx, 0))
            elif isinstance(n, ast.UnaryOp) and isinstance(n.op, ast.Not):
                self.pts.append(('not', idx, 0))
            elif isinstance(n, ast.Constant) and isinstance(n.value, bool):
                self.pts.append(('flip', idx, 0))
            elif isinstance(n, ast.Constant) and isinstance(n.value, int) and not isinstance(n.value, bool) and abs(n.value) < 70000:
                self.pts.append(('int', idx, +1))
                self.pts.append(('int', idx, -1))
            elif isinstance(n, ast.If):
                self.pts.append(('ifneg', idx, 0))
            elif isinstance(n, (ast.Continue, ast.Break)):
                self.pts.append(('drop', idx, 0))
            elif isinstance(n, (ast.Assign, ast.AugAssign)) and not isinstance(getattr(n, 'value', None), (ast.Constant,)):
                self.pts.append(('dropassign', idx, 0))
        return self.pts


def in_docstring_or_annotation(tree):
    """indices of nodes that must not be mutated: annotations, decorator lists, module/class-level constant tables are fine"""
    skip = set()
    for n in ast.walk(tree):
        for f in ('annotation', 'returns'):
            a = getattr(n, f, None)
            if a is not None:
                for m in ast.walk(a):
                    skip.add(id(m))
    return skip


def apply(src, pt):
    tree = ast.parse(src)
    skip = in_docstring_or_annotation(tree)
    kind, idx, var = pt
    nodes = list(ast.walk(tree))
    n = nodes[idx]
    if id(n) in skip:
        return None
    # functions no property speaks about and the model leaves out: string renderings, the unused match() helpers of the header parsers
    for fn in nodes:
        if isinstance(fn, ast.FunctionDef) and fn.name in ('__repr__', '__str__', 'match') and any(m is n for m in ast.walk(fn)):
            return None
    if kind == 'cmp':
        n.ops = [CMP[type(n.ops[0])]()]
    elif kind == 'bin':
        n.op = BIN[type(n.op)]()
    elif kind == 'bool':
        n.op = ast.Or() if isinstance(n.op, ast.And) else ast.And()
    elif kind == 'not':
        # replace `not x` by `x`: find parent
        for p in nodes:
            for f, v in ast.iter_fields(p):
                if v is n:
                    setattr(p, f, n.operand)
                elif isinstance(v, list) and n in v:
                    v[v.index(n)] = n.operand
    elif kind == 'flip':
        n.value = not n.value
    elif kind == 'int':
        n.value = n.value + var
    elif kind == 'ifneg':
        n.test = ast.UnaryOp(op=ast.Not(), operand=n.test)
    elif kind in ('drop', 'dropassign'):
        for p in nodes:
            for f, v in ast.iter_fields(p):
                if isinstance(v, list) and n in v:
                    v[v.index(n)] = ast.Pass()
    ast.fix_missing_locations(tree)
    try:
        return ast.unparse(tree), getattr(n, 'lineno', 0)
    except Exception:
        return None


def gen(nper, outdir, seed):
    rnd = random.Random(seed)
    os.makedirs(outdir, exist_ok=True)
    k = 0
    for rel in CHECKS:
        path = os.path.join(CLEAN, rel)
        src = open(path).read()
        base = ast.unparse(ast.parse(src))         # normal form: mutants differ from it in one place
        pts = Points().collect(ast.parse(src))
        rnd.shuffle(pts)
        took = 0
        seen = set()
        for pt in pts:
            if took >= nper:
                break
            r = apply(src, pt)
            if r is None:
                continue
            text, line = r
            if text == base or text in seen:
                continue
            seen.add(text)
            try:
                compile(text, rel, 'exec')
            except Exception:
                continue
            # one-line description: the differing line
            bl, ml = base.split('\n'), text.split('\n')
            diff = [(a, b) for a, b in zip(bl, ml) if a != b][:1]
            d = os.path.join(outdir, 'm%04d' % k)
            os.makedirs(d, exist_ok=True)
            open(os.path.join(d, 'mutant.py'), 'w').write(text)
            json.dump({'file': rel, 'kind': pt[0], 'variant': pt[2], 'line': line, 'before': diff[0][0].strip() if diff else '?', 'after': diff[0][1].strip() if diff else '(line count differs)'},
                      open(os.path.join(d, 'meta.json'), 'w'))
            k += 1
            took += 1
        print(rel, len(pts), 'points,', took, 'mutants')
    print(k, 'mutants in', outdir)


def run_one(d, snap):
    meta = json.load(open(os.path.join(d, 'meta.json')))
    if os.path.exists(os.path.join(d, 'result.json')):
        return json.load(open(os.path.join(d, 'result.json')))
    wt = tempfile.mkdtemp(prefix='mutwt-', dir='/tmp')
    res = dict(meta, dir=d)
    try:
        subprocess.run('cp -r %s/. %s/ && rm -rf %s/.git' % (CLEAN, wt, wt), shell=True, check=True)
        shutil.copy(os.path.join(d, 'mutant.py'), os.path.join(wt, meta['file']))
        env = dict(os.environ, PYTHONPATH=wt, PYTHONHASHSEED='0', PYTHONDONTWRITEBYTECODE='1')
        t = time.time()
        try:
            p = subprocess.run('timeout 300 /venv/bin/python -m pytest -q -x -p no:cacheprovider 2>&1 | tail -1', shell=True, cwd=wt, env=env, stdout=subprocess.PIPE, timeout=330)
            res['tests'] = p.stdout.decode(errors='replace').strip()[-80:]
        except subprocess.TimeoutExpired:
            res['tests'] = 'timeout'
        res['tests_pass'] = '82 passed' in res['tests']
        res['caught_by'] = None
        if res['tests_pass']:
            for cid in CHECKS[meta['file']]:
                env2 = dict(os.environ, MICROSCHC_REPO=wt)
                try:
                    p = subprocess.run([os.path.join(snap, 'check'), cid, '--tier', 'quick'], env=env2, stdout=subprocess.PIPE, stderr=subprocess.STDOUT, timeout=2600)
                    out = p.stdout.decode(errors='replace')
                    rc = p.returncode
                except subprocess.TimeoutExpired:
                    out, rc = 'TIMEOUT', 1
                if rc != 0:
                    fi = [l.strip() for l in out.split('\n') if 'failing input' in l or 'no longer checks' in l or l.startswith('VIOLATION')]
                    res['caught_by'] = cid
                    res['how'] = ('failing-input' if any('failing input' in l for l in fi) else 'model-disagreement')
                    res['what'] = (fi[0] if fi else out[-200:])[:240]
                    break
        res['seconds'] = round(time.time() - t, 1)
    finally:
        shutil.rmtree(wt, ignore_errors=True)
    json.dump(res, open(os.path.join(d, 'result.json'), 'w'))
    return res


def run(outdir, jobs, snap):
    from concurrent.futures import ThreadPoolExecutor
    ds = sorted(os.path.join(outdir, x) for x in os.listdir(outdir) if x.startswith('m') and os.path.isdir(os.path.join(outdir, x)))
    with ThreadPoolExecutor(max_workers=jobs) as ex:
        for r in ex.map(lambda d: run_one(d, snap), ds):
            print(os.path.basename(r['dir']), r['file'], 'tests' if not r['tests_pass'] else (r['caught_by'] or 'SURVIVED'), '|', r['before'][:60], '->', r['after'][:60], flush=True)


def report(outdir):
    rs = []
    for x in sorted(os.listdir(outdir)):
        f = os.path.join(outdir, x, 'result.json')
        if os.path.exists(f):
            rs.append(json.load(open(f)))
    byfile = {}
    for r in rs:
        b = byfile.setdefault(r['file'], dict(n=0, tests=0, caught=0, survived=0))
        b['n'] += 1
        if not r['tests_pass']:
            b['tests'] += 1
        elif r['caught_by']:
            b['caught'] += 1
        else:
            b['survived'] += 1
    print('| file | mutants | killed by the 82 tests | pass the tests, caught by a check | pass the tests, survive |\n|---|---|---|---|---|')
    for f, b in byfile.items():
        print('| %s | %d | %d | %d | %d |' % (f, b['n'], b['tests'], b['caught'], b['survived']))
    t = {k: sum(b[k] for b in byfile.values()) for k in ('n', 'tests', 'caught', 'survived')}
    print('| total | %d | %d | %d | %d |' % (t['n'], t['tests'], t['caught'], t['survived']))
    print('\nsurvivors:')
    for r in rs:
        if r['tests_pass'] and not r['caught_by']:
            print('  %s %s:%s  %s  ->  %s' % (os.path.basename(r['dir']), r['file'], r['line'], r['before'][:90], r['after'][:90]))


if __name__ == '__main__':
    a = sys.argv[1:]
    if a[0] == 'gen':
        gen(int(a[1]), a[2], int(a[a.index('--seed') + 1]) if '--seed' in a else 1)
    elif a[0] == 'run':
        run(a[1], int(a[a.index('--jobs') + 1]) if '--jobs' in a else 8, a[a.index('--snap') + 1] if '--snap' in a else V)
    else:
        report(a[1])
