#!/usr/bin/env python3
"""run_seeded.py <seeded dir> [--checks C01,C05,...]   (a directory without demo.py is a behaviour-preserving refactoring:
only the test suite is run in the scratch worktree, and every check is expected to stay quiet)
Confirms a seeded change (patch.diff + demo.py) in a scratch worktree (tests pass, demo fails with it and passes without it),
then applies it to /repo, runs the checks, undoes it, and prints which checks raised a VIOLATION."""
import json, os, subprocess, sys, tempfile, shutil, time
V = os.path.dirname(os.path.dirname(os.path.abspath(__file__)))


def sh(cmd, cwd=None, timeout=1800, env=None):
    p = subprocess.run(cmd, shell=True, cwd=cwd, stdout=subprocess.PIPE, stderr=subprocess.STDOUT, timeout=timeout, env=env)
    return p.returncode, p.stdout.decode(errors='replace')


def main():
    d = os.path.abspath(sys.argv[1])
    checks = None
    if '--checks' in sys.argv:
        checks = sys.argv[sys.argv.index('--checks') + 1].split(',')
    patch = os.path.join(d, 'patch.diff')
    demo = os.path.join(d, 'demo.py')
    res = {'dir': d}
    # 1. scratch worktree confirmation
    wt = tempfile.mkdtemp(prefix='seedwt-', dir='/tmp')
    os.rmdir(wt)
    rc, out = sh('git -C /repo worktree add -q --detach %s HEAD' % wt)
    try:
        env = dict(os.environ, PYTHONPATH=wt, PYTHONHASHSEED='0', PYTHONDONTWRITEBYTECODE='1')
        has_demo = os.path.exists(demo)
        rc0, o0 = sh('timeout 60 /venv/bin/python %s %s' % (demo, wt), cwd=wt, env=env) if has_demo else (0, '')
        rc, out = sh('git apply %s' % patch, cwd=wt)
        res['applies'] = rc == 0
        if rc != 0:
            res['error'] = out[-300:]
            print(json.dumps(res)); return
        rct, ot = sh('/venv/bin/python -m pytest -q -p no:cacheprovider 2>&1 | tail -1', cwd=wt, env=env)
        res['tests'] = ot.strip()
        res['tests_pass'] = '82 passed' in ot
        rc1, o1 = sh('timeout 60 /venv/bin/python %s %s' % (demo, wt), cwd=wt, env=env) if has_demo else (1, 'no demo: refactoring')
        res['demo_without'] = rc0
        res['demo_with'] = rc1
        res['demo_output'] = o1.strip()[-300:]
    finally:
        sh('git -C /repo worktree remove --force %s' % wt)
    res['confirmed'] = bool(res.get('tests_pass') and res['demo_without'] == 0 and res['demo_with'] != 0)
    # 2. run checks against /repo with the patch applied
    rc, out = sh('git -C /repo status --porcelain')
    if out.strip():
        res['error'] = '/repo not clean'; print(json.dumps(res)); return
    m = json.load(open(os.path.join(V, 'MANIFEST.json')))
    ids = [c['property_id'] for c in m['checks']]
    if checks:
        ids = [i for i in ids if i in checks]
    rc, out = sh('git -C /repo apply %s' % patch)
    caught = {}
    try:
        from concurrent.futures import ThreadPoolExecutor

        def one(i):
            t = time.time()
            rc, out = sh('./check %s --tier quick' % i, cwd=V, timeout=1800)
            viol = [l for l in out.split('\n') if l.startswith('VIOLATION')]
            if rc != 0 or viol:
                fi = [l.strip() for l in out.split('\n') if 'failing input' in l or 'no longer checks' in l]
                return i, {'rc': rc, 'violation': [v.split('replay=')[0] + ('no-failing-input-found' if 'no-failing' in v else 'failing-input') for v in viol[:1]], 'what': [f[:260] for f in fi[:1]], 's': round(time.time() - t, 1)}
            return i, None
        with ThreadPoolExecutor(max_workers=10) as ex:
            for i, r in ex.map(one, ids):
                if r:
                    caught[i] = r
    finally:
        sh('git -C /repo checkout -- .')
    res['caught_by'] = caught
    print(json.dumps(res, indent=1))


if __name__ == '__main__':
    main()
