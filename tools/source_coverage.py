#!/venv/bin/python
"""source_coverage.py [--tier quick] [--repo DIR] [ids...]
Runs the checks with VERIF_COVERAGE set, combines the data and prints, per source file of the implementation, the lines and
branches that NO generator of ANY check reached.  A measuring aid for the correspondence check (DESIGN.md 4.5): a branch of the
modelled code that the generators never take is a branch on which code and model were never compared."""
import json, os, shutil, subprocess, sys, tempfile
V = os.path.dirname(os.path.dirname(os.path.abspath(__file__)))
args = sys.argv[1:]
tier = 'quick'
repo = os.environ.get('MICROSCHC_REPO', '/repo')
if '--tier' in args:
    i = args.index('--tier'); tier = args[i + 1]; del args[i:i + 2]
if '--repo' in args:
    i = args.index('--repo'); repo = args[i + 1]; del args[i:i + 2]
ids = args or ['C%02d' % i for i in range(1, 21)]
d = tempfile.mkdtemp(prefix='verifcov-')
env = dict(os.environ, VERIF_COVERAGE=d, MICROSCHC_REPO=repo, VERIF_TIME_FACTOR='15')
from concurrent.futures import ThreadPoolExecutor


def one(i):
    p = subprocess.run([os.path.join(V, 'check'), i, '--tier', tier], env=env, stdout=subprocess.PIPE, stderr=subprocess.STDOUT)
    return i, p.returncode, p.stdout.decode(errors='replace').strip().split('\n')[-1][:160]


with ThreadPoolExecutor(max_workers=int(os.environ.get('VERIF_JOBS', '5'))) as ex:
    for i, rc, last in ex.map(one, ids):
        print(i, 'exit', rc, last)
import coverage
cov = coverage.Coverage(data_file=os.path.join(d, 'combined'), branch=True)
cov.combine([os.path.join(d, f) for f in os.listdir(d) if f.startswith('cov.')])
cov.save()
rep = {}
tot = [0, 0, 0, 0]
for f in sorted(cov.get_data().measured_files()):
    a = cov._analyze(f)
    n = a.numbers
    rel = os.path.relpath(f, repo)
    missing_br = {k: v for k, v in a.missing_branch_arcs().items()}
    rep[rel] = {'statements': n.n_statements, 'missing_lines': sorted(a.missing), 'branches': n.n_branches, 'missing_branches': {str(k): v for k, v in sorted(missing_br.items())}}
    tot[0] += n.n_statements; tot[1] += len(a.missing); tot[2] += n.n_branches; tot[3] += n.n_missing_branches
    src = open(f).read().split('\n')
    if a.missing or missing_br:
        print('== %s: %d/%d statements, %d/%d branch exits missed' % (rel, len(a.missing), n.n_statements, n.n_missing_branches, n.n_branches))
        for l in sorted(a.missing):
            print('   line %4d  %s' % (l, src[l - 1].strip()[:110]))
        for k, v in sorted(missing_br.items()):
            if k not in a.missing:
                print('   branch %4d -> %s  %s' % (k, v, src[k - 1].strip()[:100]))
print('TOTAL statements %d missed %d; branch exits %d missed %d' % tuple(tot))
json.dump({'tier': tier, 'checks': ids, 'total': dict(zip(['statements', 'missed_statements', 'branch_exits', 'missed_branch_exits'], tot)), 'files': rep},
          open(os.path.join(V, 'build', 'source_coverage.json'), 'w'), indent=1)
shutil.rmtree(d)
